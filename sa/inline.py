"""Second representation of the analysed program: private helpers inlined at their call sites.

Extract-function / split-function refactorings move the statements a rule is anchored on into a
helper (`_write_changes(used_changes)`, `yield from self._assign_kwargs(...)`, `if self._warn_star(x):
return old`).  The program that results from putting the helper's body back at the call is
behaviourally the same program; a rule that is a necessary condition of a property may be decided on
either text.  `inline_tree` produces that text as an ast (nothing is executed, nothing is written).

What is inlined: a call in *statement position* (the first thing the statement evaluates) to
  - a function nested in the caller,
  - a private (leading underscore, not dunder) module-level function of the same module,
  - a private method of the caller's class (MRO) called on the caller's own receiver,
that is not recursive, not decorated (staticmethod / classmethod allowed), takes no *args / **kwargs,
and whose `return` statements are all in tail position (so they can be turned into an assignment of the
result without a jump).  Everything else is left as a call.
"""
from __future__ import annotations

import ast
from typing import Dict, List, Optional, Set

MAX_DEPTH = 3


class NotInlinable(Exception):
    pass


def clone(n):
    """deep copy of an ast node without the analysis' `_parent` back links"""
    if isinstance(n, list):
        return [clone(x) for x in n]
    if not isinstance(n, ast.AST):
        return n
    new = type(n)()
    for f in n._fields:
        if hasattr(n, f):
            setattr(new, f, clone(getattr(n, f)))
    for a in ("lineno", "col_offset", "end_lineno", "end_col_offset"):
        if hasattr(n, a):
            setattr(new, a, getattr(n, a))
    return new


def norm_name(x):
    return x.id if isinstance(x, ast.Name) else None


def _own_nodes(fn: ast.AST):
    """nodes of a function body without the bodies of nested functions / classes / lambdas"""
    stack = list(fn.body) if isinstance(fn, (ast.FunctionDef, ast.AsyncFunctionDef)) else [fn]
    while stack:
        x = stack.pop()
        yield x
        for c in ast.iter_child_nodes(x):
            if isinstance(c, (ast.FunctionDef, ast.AsyncFunctionDef, ast.ClassDef, ast.Lambda)):
                continue
            stack.append(c)


def _stored_names(fn) -> Set[str]:
    out = set()
    for x in _own_nodes(fn):
        if isinstance(x, ast.Name) and isinstance(x.ctx, (ast.Store, ast.Del)):
            out.add(x.id)
        if isinstance(x, ast.ExceptHandler) and x.name:
            out.add(x.name)
    # comprehension variables are local to the comprehension
    for x in _own_nodes(fn):
        if isinstance(x, (ast.ListComp, ast.SetComp, ast.DictComp, ast.GeneratorExp)):
            for g in x.generators:
                for t in ast.walk(g.target):
                    if isinstance(t, ast.Name):
                        out.discard(t.id)
    return out


def _all_names(fn) -> Set[str]:
    return {x.id for x in ast.walk(fn) if isinstance(x, ast.Name)} | {a.arg for x in ast.walk(fn) if isinstance(x, ast.arguments) for a in x.posonlyargs + x.args + x.kwonlyargs}


def _is_generator(fn) -> bool:
    return any(isinstance(x, (ast.Yield, ast.YieldFrom)) for x in _own_nodes(fn))


def _always_returns(stmts: List[ast.stmt]) -> bool:
    if not stmts:
        return False
    last = stmts[-1]
    if isinstance(last, (ast.Return, ast.Raise)):
        return True
    if isinstance(last, ast.If):
        return bool(last.orelse) and _always_returns(last.body) and _always_returns(last.orelse)
    return False


def _stmt_nodes(st):
    """the statement and what it contains, without nested function / class definitions"""
    if isinstance(st, (ast.FunctionDef, ast.AsyncFunctionDef, ast.ClassDef)):
        return []
    out = [st]
    stack = [st]
    while stack:
        x = stack.pop()
        for c in ast.iter_child_nodes(x):
            if isinstance(c, (ast.FunctionDef, ast.AsyncFunctionDef, ast.ClassDef, ast.Lambda)):
                continue
            out.append(c)
            stack.append(c)
    return out


def _has_return(stmts) -> bool:
    for st in stmts:
        for x in _stmt_nodes(st):
            if isinstance(x, ast.Return):
                return True
    return False


def eliminate_returns(stmts: List[ast.stmt], on_return) -> List[ast.stmt]:
    """rewrite a statement list whose returns are all in tail position: `return X` -> on_return(X); the statements behind an
    `if` that returns go into its else branch.  Raises NotInlinable for a return inside a loop / try / with."""
    out: List[ast.stmt] = []
    for i, st in enumerate(stmts):
        if isinstance(st, ast.Return):
            out.extend(on_return(st))
            return out  # the rest is dead code
        if isinstance(st, ast.If) and (_has_return(st.body) or _has_return(st.orelse)):
            rest = stmts[i + 1 :]
            body_ret, else_ret = _always_returns(st.body), _always_returns(st.orelse)
            new = clone(st)
            if body_ret and else_ret:
                new.body = eliminate_returns(st.body, on_return)
                new.orelse = eliminate_returns(st.orelse, on_return)
                out.append(new)
                return out
            if body_ret:
                new.body = eliminate_returns(st.body, on_return)
                new.orelse = eliminate_returns(list(st.orelse) + rest, on_return)
                if not new.orelse:
                    new.orelse = []
                out.append(new)
                return out
            if else_ret:
                new.orelse = eliminate_returns(st.orelse, on_return)
                new.body = eliminate_returns(list(st.body) + rest, on_return)
                out.append(new)
                return out
            if not rest:
                new.body = eliminate_returns(st.body, on_return)
                new.orelse = eliminate_returns(st.orelse, on_return)
                out.append(new)
                return out
            raise NotInlinable("return in a branch that does not end the function")
        if isinstance(st, (ast.For, ast.While)) and _has_return([st]) and i == len(stmts) - 1 and not st.orelse:
            # a loop that is the last thing the function does: `return X` inside it is `<on_return(X)>; break`
            # (this list is only ever the function body or a branch that ends the function, so nothing follows the loop)
            new = clone(st)
            new.body = _returns_to_breaks(new.body, on_return)
            out.append(new)
            return out
        if isinstance(st, (ast.For, ast.While, ast.AsyncFor, ast.Try, ast.With, ast.AsyncWith)) and _has_return([st]):
            raise NotInlinable("return inside a loop / try / with")
        if hasattr(ast, "Match") and isinstance(st, getattr(ast, "Match")) and _has_return([st]):
            raise NotInlinable("return inside match")
        out.append(st)
    return out


def thread_returns(stmts: List[ast.stmt], on_return) -> List[ast.stmt]:
    """eliminate_returns, and also: a `try` without finally whose body / else do not return and whose handlers either always
    return or never do - the handlers that return are tail positions (nothing of the function runs after them)"""
    out: List[ast.stmt] = []
    for i, st in enumerate(stmts):
        if isinstance(st, ast.Try) and _has_return([st]):
            if st.finalbody or _has_return(st.body) or _has_return(st.orelse):
                raise NotInlinable("return inside the protected part of a try")
            new = clone(st)
            for h, h0 in zip(new.handlers, st.handlers):
                if _has_return(h0.body):
                    if not _always_returns(h0.body):
                        raise NotInlinable("handler that may or may not return")
                    h.body = thread_returns(h0.body, on_return) or [ast.copy_location(ast.Pass(), h0)]
            out.append(new)
            continue
        if isinstance(st, ast.If) and (_has_return(st.body) or _has_return(st.orelse)):
            rest = stmts[i + 1 :]
            body_ret, else_ret = _always_returns(st.body), _always_returns(st.orelse)
            new = clone(st)
            if body_ret and else_ret:
                new.body = thread_returns(st.body, on_return) or [ast.copy_location(ast.Pass(), st)]
                new.orelse = thread_returns(st.orelse, on_return)
            elif body_ret:
                new.body = thread_returns(st.body, on_return) or [ast.copy_location(ast.Pass(), st)]
                new.orelse = thread_returns(list(st.orelse) + rest, on_return)
            elif else_ret:
                new.orelse = thread_returns(st.orelse, on_return)
                new.body = thread_returns(list(st.body) + rest, on_return) or [ast.copy_location(ast.Pass(), st)]
            else:
                raise NotInlinable("return in a branch that does not end the function")
            out.append(new)
            return out
        if isinstance(st, ast.Return):
            out.extend(on_return(st))
            return out
        if _has_return([st]):
            raise NotInlinable("return inside a loop / with / match")
        out.append(st)
    return out


def _as_one_expression(stmts: List[ast.stmt], depth=0):
    """the value a statement list returns, as one expression: `return E` is E; `if C: <returns A>` followed by <returns B> (or with
    an else branch) is `A if C else B`.  None for anything else (assignments, loops, a path that falls off the end)."""
    if not stmts or depth > 4:
        return None
    st = stmts[0]
    if isinstance(st, ast.Return):
        return st.value
    if isinstance(st, ast.If):
        a_ = _as_one_expression(st.body, depth + 1)
        b_ = _as_one_expression(list(st.orelse) + list(stmts[1:]) if not _always_returns(st.orelse) else list(st.orelse), depth + 1)
        if a_ is None or b_ is None:
            return None
        e = ast.IfExp(test=st.test, body=a_, orelse=b_)
        return ast.copy_location(e, st)
    return None


def _returns_to_breaks(stmts: List[ast.stmt], on_return) -> List[ast.stmt]:
    """inside the body of a tail-position loop: every `return X` becomes on_return(X) + `break`.  A return inside a nested
    loop would need a second jump: NotInlinable."""
    out: List[ast.stmt] = []
    for st in stmts:
        if isinstance(st, ast.Return):
            brk = ast.Break()
            ast.copy_location(brk, st)
            out.extend(on_return(st))
            out.append(brk)
            return out
        if isinstance(st, (ast.For, ast.While, ast.AsyncFor)) and _has_return([st]):
            raise NotInlinable("return inside a nested loop")
        if hasattr(ast, "Match") and isinstance(st, getattr(ast, "Match")) and _has_return([st]):
            raise NotInlinable("return inside match")
        if isinstance(st, (ast.FunctionDef, ast.AsyncFunctionDef, ast.ClassDef)):
            out.append(st)
            continue
        new = st
        if _has_return([st]):
            new = clone(st)
            for fld in ("body", "orelse", "finalbody"):
                if getattr(new, fld, None):
                    setattr(new, fld, _returns_to_breaks(getattr(new, fld), on_return))
            for h in getattr(new, "handlers", []) or []:
                h.body = _returns_to_breaks(h.body, on_return)
        out.append(new)
    return out


class _Rename(ast.NodeTransformer):
    def __init__(self, mapping: Dict[str, str]):
        self.m = mapping

    def visit_Name(self, n):
        if n.id in self.m:
            n.id = self.m[n.id]
        return n

    def visit_ExceptHandler(self, n):
        if n.name in self.m:
            n.name = self.m[n.name]
        self.generic_visit(n)
        return n

    def visit_Global(self, n):
        return n

    def visit_Nonlocal(self, n):
        raise NotInlinable("nonlocal in helper")

    def visit_FunctionDef(self, n):
        # a nested def: rename the free uses inside it too (closures over the helper's locals)
        self.generic_visit(n)
        return n


def _first_evaluated_call(st: ast.stmt):
    """(expression to replace, call) when the first thing the statement evaluates is a call (optionally under `yield from`)"""

    def down(e):
        if isinstance(e, ast.Call):
            return e, e
        if isinstance(e, ast.YieldFrom) and isinstance(e.value, ast.Call):
            return e, e.value
        if isinstance(e, ast.Yield) and e.value is not None:
            return down(e.value)
        if isinstance(e, ast.UnaryOp):
            return down(e.operand)
        if isinstance(e, ast.Compare):
            return down(e.left)
        if isinstance(e, ast.BoolOp):
            return down(e.values[0])
        if isinstance(e, ast.Await):
            return down(e.value)
        return None

    if isinstance(st, ast.Expr):
        return down(st.value)
    if isinstance(st, (ast.Assign, ast.AnnAssign, ast.AugAssign)) and st.value is not None:
        def plain(t):
            # `d[k] = helper()` with d and k plain names: nothing in the target is evaluated that could interfere with the call
            if isinstance(t, ast.Subscript) and isinstance(t.value, ast.Name) and isinstance(t.slice, (ast.Name, ast.Constant)):
                return True
            while isinstance(t, ast.Attribute):
                t = t.value
            return isinstance(t, (ast.Name, ast.Tuple, ast.List))

        if isinstance(st, ast.Assign) and not all(plain(t) for t in st.targets):
            return None  # a subscript / call in the target is evaluated after the value, but keep it simple
        return down(st.value)
    if isinstance(st, ast.Return) and st.value is not None:
        return down(st.value)
    if isinstance(st, ast.If):
        return down(st.test)
    if isinstance(st, (ast.For, ast.AsyncFor)):
        return down(st.iter)
    return None


def _replace(root: ast.AST, old: ast.AST, new: ast.AST):
    for parent in ast.walk(root):
        for f, v in ast.iter_fields(parent):
            if v is old:
                setattr(parent, f, new)
                return True
            if isinstance(v, list):
                for i, x in enumerate(v):
                    if x is old:
                        v[i] = new
                        return True
    return False


def known_functions() -> Set[str]:
    import os

    p = os.path.join(os.path.dirname(os.path.abspath(__file__)), "known_functions.txt")
    try:
        with open(p) as fh:
            return {l.strip() for l in fh if l.strip() and not l.startswith("#")}
    except OSError:
        return set()


class Inliner:
    def __init__(self, repo0):
        self.r = repo0
        self.counter = 0
        self.inlined: List[str] = []
        # helpers that existed when the rules were written keep their identity (the rules are anchored on them);
        # only functions a later change introduced are put back at their call sites
        self.known = known_functions()

    # --------------------------------------------------------------- resolve
    def resolve(self, f, call: ast.Call):
        """f: model Func of the (original) caller"""
        fn = call.func
        if isinstance(fn, ast.Name):
            g = f.module.funcs.get(f.qualname + "." + fn.id)
            if g is None:
                # a sibling nested function of an enclosing function
                p = f.parent
                while p is not None and g is None:
                    g = f.module.funcs.get(p.qualname + "." + fn.id)
                    p = p.parent
            if g is None and not fn.id.startswith("__"):
                # any module-level function of the same module (the list of known functions decides what is put back)
                g = f.module.funcs.get(fn.id)
                if g is not None and (g.parent is not None or g.cls is not None):
                    g = None
            return g, None
        if isinstance(fn, ast.Attribute) and isinstance(fn.value, ast.Name) and not fn.attr.startswith("__"):
            owner = f
            while owner is not None and owner.cls is None:
                owner = owner.parent
            if owner is not None and owner.params and fn.value.id == owner.params[0] and owner is f:
                g = self.r.lookup_method(owner.cls, fn.attr)
                if g is not None and g.cls is not None:
                    return g, fn.value
        return None, None

    # ---------------------------------------------------------------- inline
    # ------------------------------------------------- expression predicates
    def _header_exprs(self, st):
        """the expressions the statement itself evaluates (not those of the statements nested in it)"""
        if isinstance(st, (ast.If, ast.While)):
            return [st.test]
        if isinstance(st, (ast.For, ast.AsyncFor)):
            return [st.iter]
        if isinstance(st, (ast.With, ast.AsyncWith)):
            return [i.context_expr for i in st.items]
        if isinstance(st, (ast.Try, ast.FunctionDef, ast.AsyncFunctionDef, ast.ClassDef)) or (hasattr(ast, "Match") and isinstance(st, ast.Match)):
            return []
        return [c for c in ast.iter_child_nodes(st) if isinstance(c, ast.expr)]

    def predicates(self, f, st: ast.stmt, stack):
        """a call, anywhere in the statement's own expressions, of a new helper that is one `return <expression>` over
        arguments that are plain names / attribute chains / constants: the expression is written in its place"""

        def simple(e):
            while isinstance(e, ast.Attribute):
                e = e.value
            return isinstance(e, (ast.Name, ast.Constant))

        for _round in range(4):
            changed = False
            for root in self._header_exprs(st):
                todo = [root]
                while todo:
                    x = todo.pop()
                    if isinstance(x, (ast.Lambda, ast.ListComp, ast.SetComp, ast.DictComp, ast.GeneratorExp)):
                        continue
                    todo.extend(c for c in ast.iter_child_nodes(x) if isinstance(c, ast.expr) or isinstance(c, ast.keyword))
                    if not isinstance(x, ast.Call):
                        continue
                    g, receiver = self.resolve(f, x)
                    if g is None or g.key in stack or g.key.split("#")[0] in self.known or g.key in self.known:
                        continue
                    gn = g.node
                    if isinstance(gn, ast.AsyncFunctionDef) or any(d not in ("staticmethod",) for d in g.decorators):
                        continue
                    body = list(gn.body)
                    if body and isinstance(body[0], ast.Expr) and isinstance(body[0].value, ast.Constant) and isinstance(body[0].value.value, str):
                        body = body[1:]
                    e = _as_one_expression(body)
                    if e is None:
                        continue
                    if any(isinstance(y, (ast.Yield, ast.YieldFrom, ast.Await, ast.NamedExpr, ast.Lambda, ast.ListComp, ast.SetComp, ast.DictComp)) for y in ast.walk(e)):
                        continue
                    a = gn.args
                    if a.vararg or a.kwarg or a.kwonlyargs or a.defaults or x.keywords or any(isinstance(v, ast.Starred) for v in x.args):
                        continue
                    params = [p.arg for p in a.posonlyargs + a.args]
                    binding = {}
                    if g.cls is not None and "staticmethod" not in g.decorators:
                        if receiver is None or not params:
                            continue
                        binding[params[0]] = receiver
                        params = params[1:]
                    if len(params) != len(x.args) or not all(simple(v) for v in x.args):
                        continue
                    binding.update(zip(params, x.args))
                    # a generator expression inside the helper binds its own names: they must not collide with an argument
                    bound_inside = {y.id for y in ast.walk(e) if isinstance(y, ast.Name) and isinstance(y.ctx, ast.Store)}
                    arg_names = {y.id for v in binding.values() for y in ast.walk(v) if isinstance(y, ast.Name)}
                    if bound_inside & (arg_names | set(binding)):
                        continue
                    new = clone(e)
                    holder = ast.Expr(value=new)
                    for y in list(ast.walk(holder)):
                        if isinstance(y, ast.Name) and isinstance(y.ctx, ast.Load) and y.id in binding:
                            _replace(holder, y, clone(binding[y.id]))
                    new = holder.value
                    ast.copy_location(new, x)
                    if _replace(st, x, new):
                        self.inlined.append(f"{g.key} into {f.key}")
                        changed = True
                    break
                if changed:
                    break
            if not changed:
                return

    def expand(self, f, caller_node, st: ast.stmt, stack, depth) -> Optional[List[ast.stmt]]:
        self.predicates(f, st, stack)
        hit = _first_evaluated_call(st)
        if hit is None:
            return None
        expr, call = hit
        g, receiver = self.resolve(f, call)
        if g is None or g.key in stack or depth >= MAX_DEPTH:
            return None
        if g.key.split("#")[0] in self.known or g.key in self.known:
            return None
        gn = g.node
        if isinstance(gn, ast.AsyncFunctionDef):
            return None
        if any(d not in ("staticmethod", "classmethod") for d in g.decorators):
            return None
        a = gn.args
        if a.vararg or a.kwarg or any(isinstance(x, ast.Starred) for x in call.args) or any(k.arg is None for k in call.keywords):
            return None
        gen = _is_generator(gn)
        if gen and not isinstance(expr, ast.YieldFrom):
            return None
        if not gen and isinstance(expr, ast.YieldFrom):
            return None
        params = [x.arg for x in a.posonlyargs + a.args]
        defaults = {p.arg: d for p, d in zip((a.posonlyargs + a.args)[len(a.posonlyargs + a.args) - len(a.defaults) :], a.defaults)}
        kwonly = [x.arg for x in a.kwonlyargs]
        kwdefaults = {p.arg: d for p, d in zip(a.kwonlyargs, a.kw_defaults) if d is not None}
        binding: Dict[str, ast.AST] = {}
        pos = list(call.args)
        is_method = g.cls is not None and "staticmethod" not in g.decorators
        if is_method:
            if receiver is None or not params:
                return None
            binding[params[0]] = receiver
            rest_params = params[1:]
        else:
            rest_params = params
        if len(pos) > len(rest_params):
            return None
        for p, v in zip(rest_params, pos):
            binding[p] = v
        for k in call.keywords:
            if k.arg in binding or k.arg not in rest_params + kwonly:
                return None
            binding[k.arg] = k.value
        for p in rest_params + kwonly:
            if p not in binding:
                d = defaults.get(p, kwdefaults.get(p))
                if d is None:
                    return None
                binding[p] = clone(d)
        try:
            return self._splice(f, caller_node, st, expr, call, g, binding, stack, depth)
        except NotInlinable:
            return None

    def _splice(self, f, caller_node, st, expr, call, g, binding, stack, depth):
        gn = g.node
        body = clone([s for s in gn.body])
        if body and isinstance(body[0], ast.Expr) and isinstance(body[0].value, ast.Constant) and isinstance(body[0].value.value, str):
            body = body[1:]
        caller_names = _all_names(caller_node)
        stored = _stored_names(gn)
        mapping: Dict[str, str] = {}
        pro: List[ast.stmt] = []
        # (1) a parameter that is read exactly once, never re-bound, in the first statement that does more than assign a
        #     constant: the argument expression is put there directly (no `p = <arg>` binding that a rule would have to see through)
        subst: Dict[str, ast.AST] = {}
        for p, v in list(binding.items()):
            if p in stored or isinstance(v, ast.Name):
                continue
            uses = [x for s_ in body for x in ast.walk(s_) if isinstance(x, ast.Name) and x.id == p]
            if len(uses) != 1 or not isinstance(uses[0].ctx, ast.Load):
                continue
            first = None
            for s_ in body:
                if isinstance(s_, ast.Assign) and isinstance(s_.value, ast.Constant):
                    continue
                first = s_
                break
            if first is not None and any(x is uses[0] for x in _stmt_nodes(first)):
                subst[p] = v
        for p, v in subst.items():
            for s_ in body:
                for x in list(ast.walk(s_)):
                    if isinstance(x, ast.Name) and x.id == p and isinstance(x.ctx, ast.Load):
                        _replace(s_, x, clone(v))
            del binding[p]
        # (2) `T = helper(...)` where the helper ends in `return L` for a local L: L is T (no `T = L` copy)
        if isinstance(st, ast.Assign) and st.value is expr and len(st.targets) == 1 and isinstance(st.targets[0], ast.Name) and body and isinstance(body[-1], ast.Return) and isinstance(body[-1].value, ast.Name) and not _has_return(body[:-1]):
            L, T = body[-1].value.id, st.targets[0].id
            in_args = {x.id for a_ in call.args for x in ast.walk(a_) if isinstance(x, ast.Name)} | {x.id for k_ in call.keywords for x in ast.walk(k_.value) if isinstance(x, ast.Name)}
            if L in stored and L not in binding and T not in in_args and (L == T or T not in _all_names(gn)):
                mapping[L] = T
        # (2b) `T1, T2 = helper(...)` where the helper ends in `return L1, L2` of distinct locals: each Li is Ti
        if isinstance(st, ast.Assign) and st.value is expr and len(st.targets) == 1 and isinstance(st.targets[0], ast.Tuple) and body and isinstance(body[-1], ast.Return) and isinstance(body[-1].value, ast.Tuple) and not _has_return(body[:-1]):
            Ls, Ts = body[-1].value.elts, st.targets[0].elts
            if len(Ls) == len(Ts) and all(isinstance(x, ast.Name) for x in list(Ls) + list(Ts)) and len({x.id for x in Ls}) == len(Ls) and len({x.id for x in Ts}) == len(Ts):
                in_args = {x.id for a_ in call.args for x in ast.walk(a_) if isinstance(x, ast.Name)} | {x.id for k_ in call.keywords for x in ast.walk(k_.value) if isinstance(x, ast.Name)}
                names_g = _all_names(gn)
                if all(L.id in stored and L.id not in binding and T.id not in in_args and (L.id == T.id or T.id not in names_g) for L, T in zip(Ls, Ts)):
                    for L, T in zip(Ls, Ts):
                        mapping[L.id] = T.id
        names_in_helper = _all_names(gn)
        for p, v in binding.items():
            same = isinstance(v, ast.Name) and v.id == p and p not in stored
            if same:
                continue
            # an argument that is a plain name, for a parameter the helper never re-binds: the parameter *is* that name
            # (no `recorder = cr` alias that every rule would have to see through), unless the name means something else in the helper
            if isinstance(v, ast.Name) and p not in stored and v.id not in names_in_helper and v.id not in mapping.values():
                mapping[p] = v.id
                continue
            new = p
            if p in caller_names and not (isinstance(v, ast.Name) and v.id == p):
                new = f"{p}__{g.name.strip('_')}"
                mapping[p] = new
            elif isinstance(v, ast.Name) and v.id == p and p in stored:
                new = f"{p}__{g.name.strip('_')}"
                mapping[p] = new
            asg = ast.Assign(targets=[ast.Name(id=new, ctx=ast.Store())], value=clone(v))
            ast.copy_location(asg, call)
            pro.append(asg)
        for nm in stored:
            if nm in binding or nm in mapping:
                continue
            if nm in caller_names:
                mapping[nm] = f"{nm}__{g.name.strip('_')}"
        if mapping:
            rn = _Rename(mapping)
            body = [rn.visit(s) for s in body]
        # nested inlining inside the helper's body
        body = self.block(g, gn, body, stack + [g.key], depth + 1)
        self.counter += 1
        res = f"_inl_result_{self.counter}"
        whole_value = isinstance(st, ast.Return) and st.value is expr
        discarded = isinstance(st, ast.Expr) and st.value is expr
        single_tail = bool(body) and isinstance(body[-1], ast.Return) and not _has_return(body[:-1])
        test_of_if = isinstance(st, ast.If) and (st.test is expr or (isinstance(st.test, ast.UnaryOp) and isinstance(st.test.op, ast.Not) and st.test.operand is expr))
        rets_g = [r for s_ in body for r in _stmt_nodes(s_) if isinstance(r, ast.Return)]
        if test_of_if and not isinstance(expr, ast.YieldFrom) and rets_g and all(isinstance(r.value, ast.Constant) and isinstance(r.value.value, bool) for r in rets_g) and len({r.value.value for r in rets_g}) == len(rets_g) and isinstance(body[-1], (ast.Return, ast.If)) and _always_returns(body):
            # `if [not] helper(..): A else: B` where the helper answers with the constants True / False, each from one place:
            # the branch the answer selects is written where the answer is given (a predicate built around try / except)
            negate = st.test is not expr
            br_t = self.block(f, caller_node, list(st.body), stack, depth)
            br_f = self.block(f, caller_node, list(st.orelse), stack, depth)

            def on_ret(r):
                truth = bool(r.value.value) != negate
                return list(br_t if truth else br_f)

            out = pro + thread_returns(body, on_ret)
            if not out:
                out = [ast.copy_location(ast.Pass(), st)]
        elif whole_value:
            new_body = body  # `return helper(...)`: the helper's returns are the caller's
            out = pro + new_body
            if not _always_returns(new_body):
                r = ast.Return(value=ast.Constant(value=None))
                ast.copy_location(r, st)
                out.append(r)
        elif discarded and _is_tail(caller_node, st) and all(r.value is None or (isinstance(r.value, ast.Constant) and r.value.value is None) for s_ in body for r in _stmt_nodes(s_) if isinstance(r, ast.Return)):
            # the call is the last thing the caller does and the helper returns nothing: its `return`s are the caller's
            out = pro + body
        elif discarded:

            def on_ret(r):
                if r.value is None or isinstance(r.value, ast.Constant):
                    return []
                e = ast.Expr(value=r.value)
                ast.copy_location(e, r)
                return [e]

            out = pro + eliminate_returns(body, on_ret)
            if not out:
                p_ = ast.Pass()
                ast.copy_location(p_, st)
                out = [p_]
        elif single_tail:
            val = body[-1].value if body[-1].value is not None else ast.Constant(value=None)
            new_st = st  # statement objects of the caller tree are fresh (the tree was re-parsed)
            if isinstance(st, ast.Assign) and st.value is expr and len(st.targets) == 1 and isinstance(st.targets[0], ast.Name) and isinstance(val, ast.Name) and val.id == st.targets[0].id:
                out = pro + body[:-1]  # coalesced: the helper's result variable is the target itself
            elif isinstance(st, ast.Assign) and st.value is expr and len(st.targets) == 1 and isinstance(st.targets[0], ast.Tuple) and isinstance(val, ast.Tuple) and [norm_name(x) for x in val.elts] == [norm_name(x) for x in st.targets[0].elts] and None not in [norm_name(x) for x in val.elts]:
                out = pro + body[:-1]  # coalesced tuple: `a, b = a, b`
            else:
                if not _replace(new_st, expr, val):
                    raise NotInlinable("call not found in statement")
                out = pro + body[:-1] + [new_st]
        else:

            # `T = helper(...)` with T a name / attribute of a name the helper does not re-bind: the returns assign T directly
            direct = None
            if isinstance(st, ast.Assign) and st.value is expr and len(st.targets) == 1:
                t = st.targets[0]
                root = t
                while isinstance(root, ast.Attribute):
                    root = root.value
                if isinstance(root, ast.Name) and isinstance(t, (ast.Name, ast.Attribute)):
                    rebound = {x.id for s_ in body for x in _stmt_nodes(s_) if isinstance(x, ast.Name) and isinstance(x.ctx, (ast.Store, ast.Del))}
                    reads_t = isinstance(t, ast.Name) and any(isinstance(x, ast.Name) and x.id == t.id for s_ in body for x in _stmt_nodes(s_))
                    if root.id not in rebound and not reads_t:
                        direct = t

            def on_ret(r):
                v = r.value if r.value is not None else ast.Constant(value=None)
                tgt = clone(direct) if direct is not None else ast.Name(id=res, ctx=ast.Store())
                asg = ast.Assign(targets=[tgt], value=v)
                ast.copy_location(asg, r)
                ast.fix_missing_locations(asg)
                return [asg]

            new_body = eliminate_returns(body, on_ret)
            if direct is not None:
                if not _always_assigns(new_body, ast.dump(direct)):
                    # the helper may fall off its end (implicit None): keep the result variable instead
                    direct = None
                    new_body = eliminate_returns(body, on_ret)
            if direct is not None:
                out = pro + new_body
            else:
                if not _always_assigns(new_body, res):
                    init = ast.Assign(targets=[ast.Name(id=res, ctx=ast.Store())], value=ast.Constant(value=None))
                    ast.copy_location(init, st)
                    new_body = [init] + new_body
                nm = ast.Name(id=res, ctx=ast.Load())
                ast.copy_location(nm, expr)
                if not _replace(st, expr, nm):
                    raise NotInlinable("call not found in statement")
                out = pro + new_body + [st]
        self.inlined.append(f"{g.key} into {f.key}")
        for s in out:
            ast.fix_missing_locations(s)
        return out

    def block(self, f, caller_node, stmts: List[ast.stmt], stack, depth) -> List[ast.stmt]:
        out: List[ast.stmt] = []
        for st in stmts:
            if isinstance(st, (ast.FunctionDef, ast.AsyncFunctionDef, ast.ClassDef)):
                out.append(st)
                continue
            exp = self.expand(f, caller_node, st, stack, depth)
            if exp is not None:
                # the spliced statements were processed already (with the helper on the stack); only the caller's own
                # statement - when it survives as the last one - still has blocks of the caller to look into
                if exp and exp[-1] is st:
                    self._recurse(f, caller_node, st, stack, depth, only_children=True)
                out.extend(exp)
                continue
            self._recurse(f, caller_node, st, stack, depth, only_children=True)
            out.append(st)
        return out

    def _recurse(self, f, caller_node, st, stack, depth, only_children):
        for fld in ("body", "orelse", "finalbody"):
            v = getattr(st, fld, None)
            if isinstance(v, list) and v and isinstance(v[0], ast.stmt):
                setattr(st, fld, self.block(f, caller_node, v, stack, depth))
        for h in getattr(st, "handlers", []) or []:
            h.body = self.block(f, caller_node, h.body, stack, depth)


def _tail_statements(stmts, acc):
    if not stmts:
        return
    last = stmts[-1]
    acc.add(id(last))
    if isinstance(last, ast.If):
        _tail_statements(last.body, acc)
        _tail_statements(last.orelse, acc)
    elif isinstance(last, ast.Try):
        _tail_statements(last.orelse if last.orelse else last.body, acc)
        for h in last.handlers:
            _tail_statements(h.body, acc)
    elif isinstance(last, (ast.With, ast.AsyncWith)):
        _tail_statements(last.body, acc)


def _is_tail(fn_node, st) -> bool:
    """st is the last statement executed on its path through fn_node (only `finally` blocks may follow)"""
    if not isinstance(fn_node, (ast.FunctionDef, ast.AsyncFunctionDef)):
        return False
    if any(isinstance(r, ast.Return) and r.value is not None and not (isinstance(r.value, ast.Constant) and r.value.value is None) for r in _own_nodes(fn_node)):
        return False  # the caller returns values: keep it simple
    acc = set()
    _tail_statements(fn_node.body, acc)
    return id(st) in acc


def _always_assigns(stmts, name) -> bool:
    """every normal exit of the statement list ends with an assignment to `name` (a variable name, or the ast.dump of a
    target expression)"""

    def is_t(t):
        return (isinstance(t, ast.Name) and t.id == name) or ast.dump(t) == name

    if not stmts:
        return False
    last = stmts[-1]
    if isinstance(last, ast.Assign) and any(is_t(t) for t in last.targets):
        return True
    if isinstance(last, ast.Raise):
        return True
    if isinstance(last, ast.If):
        return bool(last.orelse) and _always_assigns(last.body, name) and _always_assigns(last.orelse, name)
    if isinstance(last, ast.While) and isinstance(last.test, ast.Constant) and last.test.value is True and not last.orelse:
        # `while True:` is left only through its breaks: each must directly follow the assignment
        def breaks_ok(body) -> bool:
            for i, st in enumerate(body):
                if isinstance(st, ast.Break):
                    prev = body[i - 1] if i else None
                    if not (isinstance(prev, ast.Assign) and any(is_t(t) for t in prev.targets)):
                        return False
                elif isinstance(st, (ast.For, ast.While, ast.AsyncFor, ast.FunctionDef, ast.AsyncFunctionDef, ast.ClassDef)):
                    continue  # a break in there leaves that loop, not this one
                else:
                    for fld in ("body", "orelse", "finalbody"):
                        if getattr(st, fld, None) and not breaks_ok(getattr(st, fld)):
                            return False
                    for h in getattr(st, "handlers", []) or []:
                        if not breaks_ok(h.body):
                            return False
            return True

        return breaks_ok(last.body)
    return False


def inline_tree(repo0, module) -> (ast.Module, List[str]):
    """fresh ast of `module` (a model Module of repo0) with the private helpers inlined into their callers"""
    tree = ast.parse(module.source, filename=module.path)
    inl = Inliner(repo0)

    def visit(body, prefix: str):
        # mirror of model._index: the same qualified names (incl. the `#n` suffix for repeated names)
        seen: Dict[str, int] = {}
        for st in body:
            if isinstance(st, (ast.FunctionDef, ast.AsyncFunctionDef)):
                q = prefix + st.name
                # find the model function by qualified name and line
                cand = [g for k, g in module.funcs.items() if (k == q or k.startswith(q + "#")) and g.node.lineno == st.lineno]
                f = cand[0] if cand else None
                if f is not None:
                    st.body = inl.block(f, st, st.body, [f.key], 0)
                    visit(st.body, f.qualname + ".")
            elif isinstance(st, ast.ClassDef):
                visit(st.body, prefix + st.name + ".")
            elif isinstance(st, (ast.If, ast.Try, ast.With, ast.For, ast.While, ast.AsyncFor, ast.AsyncWith)):
                for fld in ("body", "orelse", "finalbody"):
                    visit(getattr(st, fld, []) or [], prefix)
                for h in getattr(st, "handlers", []) or []:
                    visit(h.body, prefix)

    visit(tree.body, "")
    # a helper that was put back at every call site and is referenced nowhere else is dropped from this representation
    # (otherwise its statements would exist twice: once in context, once without)
    done_keys = {x.split(" into ")[0] for x in inl.inlined}
    for key in sorted(done_keys):
        g = repo0.funcs.get(key)
        if g is None or g.module is not module:
            continue
        name = g.name
        refs = 0
        for x in ast.walk(tree):
            if isinstance(x, ast.Name) and x.id == name:
                refs += 1
            elif isinstance(x, ast.Attribute) and x.attr == name:
                refs += 1
        other = 0
        for m2 in repo0.modules.values():
            if m2 is module:
                continue
            for x in ast.walk(m2.tree):
                if (isinstance(x, ast.Name) and x.id == name) or (isinstance(x, ast.Attribute) and x.attr == name) or (isinstance(x, ast.alias) and x.name == name):
                    other += 1
        if refs == 0 and other == 0:
            _remove_def(tree, g.node.lineno, name)
            inl.inlined.append(f"(definition of {key} dropped: no call left)")
    n_cond = _desugar_conditional_statements(tree)
    if n_cond:
        inl.inlined.append(f"({n_cond} statement(s) `return/x = A if C else B` of {module.rel} written as if / else)")
    ast.fix_missing_locations(tree)
    return tree, inl.inlined


def _desugar_conditional_statements(tree) -> int:
    """`return A if C else B` -> `if C: return A` / `else: return B`; the same for an assignment to one plain target.
    Same program; the statement graph then has the two outcomes as paths (a conditional expression is one node)."""
    n = 0
    for parent_ in list(ast.walk(tree)):
        if not isinstance(parent_, (ast.FunctionDef, ast.AsyncFunctionDef)) and not (isinstance(parent_, ast.stmt) or isinstance(parent_, ast.ExceptHandler)):
            continue
        for fld in ("body", "orelse", "finalbody"):
            lst = getattr(parent_, fld, None)
            if not (isinstance(lst, list) and lst and isinstance(lst[0], ast.stmt)):
                continue
            for i, st in enumerate(lst):
                new = None
                if isinstance(st, ast.Return) and isinstance(st.value, ast.IfExp):
                    e = st.value
                    new = ast.If(test=e.test, body=[ast.Return(value=e.body)], orelse=[ast.Return(value=e.orelse)])
                elif isinstance(st, ast.Assign) and isinstance(st.value, ast.IfExp) and len(st.targets) == 1 and (isinstance(st.targets[0], ast.Name) or (isinstance(st.targets[0], ast.Attribute) and isinstance(st.targets[0].value, ast.Name))):
                    e = st.value
                    new = ast.If(test=e.test, body=[ast.Assign(targets=[clone(st.targets[0])], value=e.body)], orelse=[ast.Assign(targets=[clone(st.targets[0])], value=e.orelse)])
                if new is not None:
                    for x in ast.walk(new):
                        if not hasattr(x, "lineno") and isinstance(x, (ast.stmt, ast.expr)):
                            ast.copy_location(x, st)
                    ast.copy_location(new, st)
                    lst[i] = new
                    n += 1
    return n


def _remove_def(tree, lineno, name):
    for parent in ast.walk(tree):
        for fld in ("body", "orelse", "finalbody"):
            v = getattr(parent, fld, None)
            if isinstance(v, list):
                for i, x in enumerate(v):
                    if isinstance(x, (ast.FunctionDef, ast.AsyncFunctionDef)) and x.name == name and x.lineno == lineno:
                        if len(v) == 1:
                            p_ = ast.Pass()
                            ast.copy_location(p_, x)
                            v[i] = p_
                        else:
                            del v[i]
                        return True
    return False
